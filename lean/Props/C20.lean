/-
C20 — a protocol run is always a valid, correctly attributed interaction.

Model: `Model/IoRun.lean` (the run as a labelled transition system; events = data arriving from an
external party at ANY time, the fuzzer's turn, the steps of `parse_next_remote_packet`, and the three
time-outs as events).  Helper lemmas: `Proofs/IoRun.lean`.  The rule the source has at the places the repairs
8c7aa85d / bd6395f0 touched (fragment selection / reading / clearing by sender AND recipient, recipient filter
on the candidate message types, `_extends_history` guard of the send) is GENERATED from /repo's current source
(`Generated/IoRun.lean`, harness/translate_iorun.py): every theorem below is stated for `Generated.variant`
and is provable because that variant is `Variant.current` (`C20_source_has_current_rule`).  A source that
goes back to sender-only filtering or to the unguarded send regenerates another variant and this file no
longer checks.

FULL STATEMENT (properties.jsonl):  for every spec, every behaviour of the external parties and every
fragmentation / arrival interleaving of their data,
  (1) the recorded history is at every step a prefix of an interaction of the spec's language;
  (2) each message is attributed to the party that produced it …
  (3) … and reaches the specified recipient exactly once and in order;
  (4) every message Fandango sends satisfies the constraints;
  (5) a remote message that fits no expected type, or violates a constraint, ends the run with an error
      and is not accepted.

What is proved, for ALL schedules of the event-level machine (no bound on anything), at full strength
(`C20_full_statement` = run invariant for every reachable state):
  (1) `C20_history_valid`, `C20_history_grows_stepwise`, `C20_history_prefix_of_language` (through C19)
  (2)+(3) remote messages: `C20_attribution` — every remote message is exactly one consumed group of fragments,
      all produced by its recorded sender AND all delivered to one party, which is the recipient it is recorded
      with (whenever the spec names one); `C20_channel_accounting_groups` / `C20_channel_accounting` — per
      (sender, recipient) channel: recorded payloads ++ still buffered = everything delivered over that
      channel, in order, each datum once; `C20_extraction_takes_channel_prefix`, `C20_other_channels_untouched`
      — an extraction removes a prefix of ITS channel's buffered data and nothing of any other channel,
      however the channels are interleaved in the buffer; `C20_misdelivered_data_fails` — data delivered to
      a party for which the forecast has no message of that sender is not accepted.
      Fandango's own messages: `C20_sent_exactly_once_in_order`, `C20_non_extending_tree_not_sent`,
      `C20_extending_candidate_is_history_plus_one`.
  (4) `C20_every_message_checked`, `C20_fuzzer_msgs_satisfy` (the constraint verdict itself is the oracle
      `Spec.ok`: C02/C07; that the generator's message satisfies it is the generator's contract)
  (5) `C20_bad_remote_fails`, `C20_truncated_remote_fails`, `C20_unexpected_party_fails`,
      `C20_accepted_remote_was_parsed_and_checked`, `C20_failed_is_final`
  fragmentation / interleaving: `C20_fragmentation_irrelevant` (+ `C20_chunking_same_state`): how a party's data is
      cut into receive() calls is invisible; `C20_recv_commutes_with_exStep`: data arriving while an extraction
      reads does not disturb it.  NOT proved as one theorem: "WHICH prefix of its channel an extraction takes is a
      function of that channel's stream alone" (it follows informally from `findNext_spec` +
      `C20_extraction_takes_channel_prefix`: the parsers see exactly the channel's data in order; the harness
      checks it on every run).

OLD RULE (before 8c7aa85d / bd6395f0), kept as labelled witnesses about `Variant.old` only:
  `C20_OLD_RULE_recipient_misattributed`, `C20_OLD_RULE_full_statement_false` (sender-only filtering records data
  delivered to Fy as a message received by Fz), `C20_OLD_RULE_retransmits` (the unguarded send hands the previous
  message to party.send again).

PARTIAL with respect to: threads, sockets, wall-clock (time-outs are events the environment may fire
whenever the code waits); the parser of one message type and the constraint evaluation are oracles
(`Spec.complete/cont/ok` — functions of the concatenated word: that is C13's chunking statement).
-/
import Proofs.IoRun
import Generated.IoRun
import Props.C19
namespace FV
namespace Io

/-! ## the source has the rule the theorems are about -/

/-- OBLIGATION ON THE SOURCE (regenerated on every run): fragment selection, reading and clearing are by
    sender AND recipient, only types addressed to the data's recipient are tried, and the send is guarded by
    `_extends_history` -/
theorem C20_source_has_current_rule : Generated.variant = Variant.current := by decide

/-- the machine of the current source -/
abbrev stepNow := step Generated.variant
abbrev ReachableNow := Reachable Generated.variant

theorem C20_reach_current {S : Spec} {s : State} (h : ReachableNow S s) : Reachable Variant.current S s :=
  C20_source_has_current_rule ▸ h

theorem C20_step_current {S : Spec} {s s' : State} {ev : Event} (h : stepNow S s ev = some s') :
    step Variant.current S s ev = some s' := C20_source_has_current_rule ▸ h

/-! ## the invariant, every event, every schedule -/

theorem C20_run_inv_init (S : Spec) : RunInv S init := runInv_init S

/-- every enabled event — data arriving at any moment, the fuzzer's turn, each step of the extraction,
    each time-out — keeps the run invariant -/
theorem C20_run_inv_step (S : Spec) (s s' : State) (ev : Event) (inv : RunInv S s)
    (h : stepNow S s ev = some s') : RunInv S s' := runInv_step S s s' ev inv (C20_step_current h)

theorem C20_run_inv_reachable (S : Spec) (s : State) (h : ReachableNow S s) : RunInv S s :=
  runInv_reachable S s (C20_reach_current h)

/-- … in particular after any schedule given as a list of events -/
theorem C20_run_inv_schedule (S : Spec) (evs : List Event) (s : State)
    (h : runEvents Generated.variant S init evs = some s) : RunInv S s :=
  C20_run_inv_reachable S s (reachable_runEvents _ S evs init s Reachable.init h)

/-- the statement at full strength, for the model with rule `V` -/
def C20_FullStatement (V : Variant) : Prop := ∀ (S : Spec) (s : State), Reachable V S s → RunInv S s

theorem C20_full_statement : C20_FullStatement Generated.variant := fun S s h => C20_run_inv_reachable S s h

/-! ## (1) the history is a prefix of an interaction, at every step -/

theorem C20_history_valid (S : Spec) (s : State) (h : ReachableNow S s) : Valid S s.history :=
  (C20_run_inv_reachable S s h).valid

/-- an event leaves the history alone or appends exactly one message: nothing is ever rewritten -/
theorem C20_history_grows_stepwise (S : Spec) (s s' : State) (ev : Event) (h : stepNow S s ev = some s') :
    s'.history = s.history ∨ ∃ m, s'.history = s.history ++ [m] := step_history S s s' ev (C20_step_current h)

def toFc (m : Msg) : Fc.Msg := ⟨m.sender, m.recipient, m.type⟩

/-- tie to C19: when everything the forecast offers is offered by the verified forecaster `nexts`
    (that is C19's statement about `PacketForecaster.predict`), a valid history is a prefix of an
    interaction of the grammar's message-level language -/
theorem C20_history_prefix_of_language (S : Spec) (G : Grammar) (rank : String → Nat) (F : Nat) (start : Node)
    (hL : Fc.NoLeftRec G rank F) (hP : Fc.Productive G)
    (h0 : Fc.PrefixLang G start [])
    (hF : ∀ h o, o ∈ S.forecast h → (⟨o.sender, o.recipient, o.type⟩ : Fc.Msg) ∈ Fc.nexts G F start (h.map toFc))
    (h : List Msg) (hv : Valid S h) : Fc.PrefixLang G start (h.map toFc) := by
  induction hv with
  | nil => exact h0
  | snoc h m _ a _ _ _ _ =>
    have := (Fc.C19_offers_keep_prefix G rank F start hL hP (h.map toFc) _ (hF h m.opt a)).2
    simpa [toFc, Msg.opt] using this

theorem C20_run_prefix_of_language (S : Spec) (G : Grammar) (rank : String → Nat) (F : Nat) (start : Node)
    (hL : Fc.NoLeftRec G rank F) (hP : Fc.Productive G) (h0 : Fc.PrefixLang G start [])
    (hF : ∀ h o, o ∈ S.forecast h → (⟨o.sender, o.recipient, o.type⟩ : Fc.Msg) ∈ Fc.nexts G F start (h.map toFc))
    (s : State) (hr : ReachableNow S s) : Fc.PrefixLang G start (s.history.map toFc) :=
  C20_history_prefix_of_language S G rank F start hL hP h0 hF _ (C20_history_valid S s hr)

/-! ## (2)+(3) attribution to the producer AND the recipient; exactly once, in order, per channel -/

/-- every remote message of the history was built from exactly one consumed group of received fragments;
    every one of them was produced by the recorded sender, all were delivered to one and the same party,
    and that party is the recipient the message is recorded with (if the spec names one) -/
theorem C20_attribution (S : Spec) (s : State) (h : ReachableNow S s) :
    ∀ m ∈ remoteMsgs s.history, ∃ g ∈ s.used,
      m.payload = g.map (·.data) ∧
      (∃ q, (∀ f ∈ g, f.sender = m.sender ∧ f.recipient = q) ∧ (m.recipient = none ∨ m.recipient = some q)) ∧
      (∀ f ∈ g, f ∈ s.recvd) := by
  intro m hm
  have inv := C20_run_inv_reachable S s h
  obtain ⟨g, hg, ha⟩ := paired_get _ _ inv.attributed m (List.mem_append_left _ hm)
  exact ⟨g, hg, ha.2.1, ha.2.2, inv.used_sub g hg⟩

/-- the recipient clause on its own: the data of a message recorded as received by `r` was delivered to `r` -/
theorem C20_recorded_recipient_is_true_recipient (S : Spec) (s : State) (h : ReachableNow S s)
    (m : Msg) (hm : m ∈ remoteMsgs s.history) (r : Party) (hr : m.recipient = some r) :
    ∃ g ∈ s.used, m.payload = g.map (·.data) ∧ ∀ f ∈ g, f.sender = m.sender ∧ f.recipient = r := by
  obtain ⟨g, hg, hp, ⟨q, hq, hor⟩, _⟩ := C20_attribution S s h m hm
  refine ⟨g, hg, hp, ?_⟩
  rcases hor with hn | hs
  · rw [hr] at hn; exact absurd hn (by simp)
  · rw [hr] at hs; cases hs; exact hq

/-- messages and consumed groups correspond one to one, in order -/
theorem C20_one_group_per_message (S : Spec) (s : State) (h : ReachableNow S s) :
    (remoteMsgs s.history ++ s.rejected.toList).length = s.used.length :=
  paired_length _ _ (C20_run_inv_reachable S s h).attributed

/-- per (sender, recipient) channel, for every schedule: what the extractions consumed, followed by what is
    still in the buffer, is exactly the data delivered over that channel, in order — nothing lost,
    duplicated, reordered or taken from another channel -/
theorem C20_channel_accounting_groups (S : Spec) (s : State) (h : ReachableNow S s) (p q : Party) :
    chan p q s.used.flatten ++ chan p q s.buffer = chan p q s.recvd :=
  (C20_run_inv_reachable S s h).once p q

/-- the same in terms of the recorded messages, when the messages of sender `p` name their recipient (as
    every `<sender:recipient:type>` of a spec does): the payloads recorded for `p → q` (accepted, then the
    rejected one if any), followed by what is still buffered of `p → q`, are the data `p` delivered to `q` -/
theorem C20_channel_accounting (S : Spec) (s : State) (h : ReachableNow S s) (p q : Party)
    (hN : ∀ m ∈ remoteMsgs s.history ++ s.rejected.toList, m.sender = p → m.recipient ≠ none) :
    recorded p q (remoteMsgs s.history ++ s.rejected.toList) ++ chan p q s.buffer = chan p q s.recvd := by
  have inv := C20_run_inv_reachable S s h
  rw [paired_recorded p q _ _ inv.attributed hN]
  exact inv.once p q

/-- remote data comes from external parties only, and a locally generated message from a
    fuzzer-controlled one -/
theorem C20_producers (S : Spec) (s : State) (h : ReachableNow S s) :
    (∀ f ∈ s.recvd, S.fuzzer f.sender = false) ∧
    (∀ h1 m h2, s.history = h1 ++ m :: h2 → m.remote = false → S.fuzzer m.sender = true) := by
  have inv := C20_run_inv_reachable S s h
  exact ⟨inv.external, fun h1 m h2 e => (valid_at S _ inv.valid h1 m h2 e).2.2.2⟩

/-- interleaving: the message an extraction produces is a PREFIX of the buffered data of its own
    (sender, recipient) channel, and the rest of that channel stays buffered in order — wherever the
    fragments of other channels lie in between -/
theorem C20_extraction_takes_channel_prefix (S : Spec) (s : State) (e : Ex) (hs : ReachableNow S s)
    (he : s.ex = some e) (t : Ty) (i : Nat) (w : List Nat) (hb : bestOf e.compl = some (t, i, w)) :
    chan e.sender e.recipient s.buffer
      = w ++ chan e.sender e.recipient (finish Generated.variant S s e).buffer := by
  rw [C20_source_has_current_rule]
  have inv := C20_run_inv_reachable S s hs
  have ei := inv.ex e he
  obtain ⟨_, hw, _, had⟩ := ei.compl _ (bestOf_mem _ _ hb)
  simp only at hw had
  obtain ⟨o, ho, _⟩ := addressedTo_spec _ _ _ _ had
  have hbuf : (finish Variant.current S s e).buffer = clearByParty e.sender i (some e.recipient) s.buffer := by
    simp only [finish, hb, ho, Variant.current, rcp_true]
    split <;> rfl
  rw [hbuf, ← chan_partition e.sender e.recipient e.sender e.recipient i s.buffer]
  congr 1
  have hall : ∀ f ∈ removedByParty e.sender i (some e.recipient) s.buffer,
      sel e.sender (some e.recipient) f = true := removedByParty_sel _ _ _ _
  unfold chan
  rw [streamBy_all _ _ hall, removedByParty_data, hw]
  rfl

/-- … and it removes nothing of any other channel -/
theorem C20_other_channels_untouched (S : Spec) (s : State) (e : Ex) (p q : Party)
    (hpq : ¬ (p = e.sender ∧ q = e.recipient)) :
    chan p q (finish Generated.variant S s e).buffer = chan p q s.buffer := by
  rw [C20_source_has_current_rule]
  have hk : ∀ f, sel p (some q) f = true → sel e.sender (some e.recipient) f = false := by
    rcases sel_same_or_disj e.sender e.recipient p q with h | h
    · intro f hf
      cases hsel : sel e.sender (some e.recipient) f with
      | false => rfl
      | true =>
        rw [sel_some_iff] at hf hsel
        exact absurd ⟨hf.1.symm.trans hsel.1, hf.2.symm.trans hsel.2⟩ hpq
    · exact h
  unfold finish
  split
  · rfl
  · split
    · rfl
    · simp only [Variant.current, rcp_true]
      split <;> exact clearByParty_keeps_others _ _ _ _ _ hk

/-- data delivered to a party for which the forecast has no message of that sender (no type addressed to it
    or to nobody in particular): the extraction reads one fragment, feeds no parser, and the run fails with
    "could not parse"; nothing is recorded and nothing is removed from the buffer -/
theorem C20_misdelivered_data_fails (S : Spec) (s s1 s2 s3 : State)
    (h1 : stepNow S s .exStart = some s1)
    (hno : ∀ p r, pickFrag (S.forecast s.history) s.buffer = some (p, r) →
      typesFor Generated.variant (S.forecast s.history) p r = [])
    (h2 : stepNow S s1 .exStep = some s2) (h3 : stepNow S s2 .exFinish = some s3) :
    s3.failed = some .noParse ∧ s3.history = s.history ∧ s3.buffer = s.buffer := by
  simp only [stepNow, step] at h1
  split at h1
  · split at h1
    · rename_i p r hp
      injection h1 with h1; subst h1
      have hty := hno p r hp
      simp only [stepNow, step] at h2
      split at h2
      · split at h2
        · injection h2 with h2; subst h2
          simp only [stepNow, step, hty, feedTypes_nil] at h3
          split at h3
          · injection h3 with h3; subst h3
            simp [finish, bestOf]
          · simp at h3
        · simp at h2
      · simp at h2
    · simp at h1
  · simp at h1

/-! ## (3) Fandango's own messages reach `party.send` exactly once and in order -/

theorem C20_sent_exactly_once_in_order (S : Spec) (s : State) (h : ReachableNow S s) :
    s.outbox = transmitted S s.history := (C20_run_inv_reachable S s h).outbox

/-- a tree that does not extend the recorded interaction by exactly one message is neither sent nor
    recorded (`_extends_history`) -/
theorem C20_non_extending_tree_not_sent (S : Spec) (s s' : State) (cand : List Msg)
    (hx : extendsB s.history cand = false) (h : stepNow S s (.fuzzerTurn cand) = some s') : s' = s := by
  have h := C20_step_current h
  simp only [step, Variant.current, if_true, hx] at h
  split at h
  · simp at h; exact h.symm
  · simp at h

/-- in particular the tree that IS the history (the evolutionary fallback may return it) -/
theorem C20_history_tree_not_resent (S : Spec) (s s' : State)
    (h : stepNow S s (.fuzzerTurn s.history) = some s') : s' = s :=
  C20_non_extending_tree_not_sent S s s' s.history (extendsB_self_false _) h

/-- what `_extends_history` accepts consists of the history's messages plus exactly one: so the model's
    "history ++ [m]" is the accepted tree's message list -/
theorem C20_extending_candidate_is_history_plus_one (h cand : List Msg) (hx : extendsB h cand = true) :
    ∃ m, cand.getLast? = some m ∧ cand.map Msg.key = h.map Msg.key ++ [m.key] := extendsB_spec h cand hx

/-! ## (4) every message of the history passed the constraint check when it was appended -/

theorem C20_every_message_checked (S : Spec) (s : State) (h : ReachableNow S s)
    (h1 : List Msg) (m : Msg) (h2 : List Msg) (e : s.history = h1 ++ m :: h2) :
    m.opt ∈ S.forecast h1 ∧ S.ok h1 m = true :=
  let r := valid_at S _ (C20_run_inv_reachable S s h).valid h1 m h2 e
  ⟨r.1, r.2.1⟩

/-- the fuzzer's turn changes the state only for a tree that extends the history by one message which the
    forecast offers and the constraints accept, and only while no remote data is buffered -/
theorem C20_fuzzer_msgs_satisfy (S : Spec) (s s' : State) (cand : List Msg)
    (h : stepNow S s (.fuzzerTurn cand) = some s') (hne : s' ≠ s) :
    ∃ m, s'.history = s.history ++ [m] ∧ S.ok s.history m = true ∧ m.opt ∈ S.forecast s.history ∧
      s.buffer = [] ∧ extendsB s.history cand = true ∧ cand.getLast?.map Msg.key = some m.key := by
  have h := C20_step_current h
  simp only [step, Variant.current, if_true] at h
  split at h
  · rename_i hc
    split at h
    · rename_i hx
      split at h
      · rename_i m0 hm0
        split at h
        · rename_i hg
          injection h with h; subst h
          exact ⟨{ m0 with remote := false }, rfl, hg.2.2, hg.2.1, hc.2.2, hx, by simp [hm0, Msg.key]⟩
        · simp at h
      · simp at h
    · injection h with h; exact absurd h.symm hne
  · simp at h

/-! ## (5) bad remote data ends the run with an error and is not accepted -/

/-- no forecast type parsed the channel's data ∨ the parsed message violates the constraints
    ⇒ the extraction ends in a failed state with the history unchanged -/
theorem C20_bad_remote_fails (S : Spec) (s : State) (e : Ex)
    (bad : bestOf e.compl = none ∨
      ∃ t i w o, bestOf e.compl = some (t, i, w) ∧ optFor e.opts e.sender t = some o ∧
        S.ok s.history ⟨o.sender, o.recipient, t, w, true⟩ = false) :
    (finish Generated.variant S s e).failed.isSome = true ∧ (finish Generated.variant S s e).history = s.history := by
  rcases bad with hb | ⟨t, i, w, o, hb, ho, hok⟩
  · simp [finish, hb]
  · simp [finish, hb, ho, hok]

/-- the same as events: when no type can continue (`exFinish`) … -/
theorem C20_bad_remote_fails_event (S : Spec) (s s' : State) (e : Ex) (he : s.ex = some e)
    (h : stepNow S s .exFinish = some s')
    (bad : bestOf e.compl = none ∨
      ∃ t i w o, bestOf e.compl = some (t, i, w) ∧ optFor e.opts e.sender t = some o ∧
        S.ok s.history ⟨o.sender, o.recipient, t, w, true⟩ = false) :
    s'.failed.isSome = true ∧ s'.history = s.history := by
  simp only [stepNow, step, he] at h
  split at h
  · injection h with h; subst h; exact C20_bad_remote_fails S s e bad
  · simp at h

/-- … and a truncated message (silence before any type completed) fails as well -/
theorem C20_truncated_remote_fails (S : Spec) (s s' : State) (e : Ex) (he : s.ex = some e)
    (hc : e.compl = []) (h : stepNow S s .silence = some s') :
    s'.failed = some .timeoutFragment ∧ s'.history = s.history := by
  simp only [stepNow, step, he] at h
  split at h
  · simp at h; subst h; exact ⟨rfl, rfl⟩
  · simp at h

theorem C20_unexpected_party_fails (S : Spec) (s s' : State) (h : stepNow S s .unexpected = some s') :
    s'.failed = some .unexpectedParty ∧ s'.history = s.history := by
  simp only [stepNow, step] at h
  split at h
  · injection h with h; subst h; exact ⟨rfl, rfl⟩
  · simp at h

/-- conversely, whatever remote message is in the history was parsed completely by the type it is
    recorded with, that type was forecast for its sender, and the constraints accepted it -/
theorem C20_accepted_remote_was_parsed_and_checked (S : Spec) (s : State) (h : ReachableNow S s)
    (h1 : List Msg) (m : Msg) (h2 : List Msg) (e : s.history = h1 ++ m :: h2) (hm : m.remote = true) :
    S.complete m.type m.payload = true ∧ m.opt ∈ S.forecast h1 ∧ S.ok h1 m = true :=
  let r := valid_at S _ (C20_run_inv_reachable S s h).valid h1 m h2 e
  ⟨r.2.2.1 hm, r.1, r.2.1⟩

/-- once failed (or finished) the run takes no further step of its own: the only event still enabled is data
    arriving from outside (the reader threads append at any time), which changes the buffer and nothing else —
    history, party.send calls and the verdict are final -/
theorem C20_failed_is_final (S : Spec) (s s' : State) (ev : Event)
    (h : s.failed.isSome = true ∨ s.finished = true) (hs : stepNow S s ev = some s') :
    (∃ f, ev = .recv f) ∧ s'.history = s.history ∧ s'.outbox = s.outbox ∧ s'.failed = s.failed ∧
      s'.finished = s.finished ∧ s'.rejected = s.rejected ∧ s'.used = s.used := by
  have hdead : live s = false := by
    unfold live
    rcases h with h | h
    · cases hf : s.failed <;> simp [hf] at h ⊢
    · simp [h]
  by_cases hr : ∃ f, ev = .recv f
  · obtain ⟨f, rfl⟩ := hr
    have := step_recv_effect _ S s s' f hs
    subst this
    exact ⟨⟨f, rfl⟩, rfl, rfl, rfl, rfl, rfl, rfl⟩
  · have := step_dead Generated.variant S s ev hdead (fun f hf => hr ⟨f, hf⟩)
    simp [stepNow, this] at hs

/-! ## fragmentation -/

/-- however a party's data is cut into `receive()` calls, the events — hence every later state and
    extraction result — are those of one call with the whole data (`add_receive` stores characters) -/
theorem C20_fragmentation_irrelevant (p r : Party) (chunks : List (List Nat)) (w : List Nat)
    (h : chunks.flatten = w) : chunks.flatMap (recvChunk p r) = recvChunk p r w := by
  subst h
  induction chunks with
  | nil => rfl
  | cons c cs ih => simp [List.flatMap_cons, recvChunk_append, ih]

theorem C20_chunking_same_state (S : Spec) (s : State) (p r : Party) (chunks : List (List Nat))
    (rest : List Event) :
    runEvents Generated.variant S s (chunks.flatMap (recvChunk p r) ++ rest)
      = runEvents Generated.variant S s (recvChunk p r chunks.flatten ++ rest) := by
  rw [C20_fragmentation_irrelevant p r chunks _ rfl]

/-- arrival interleaving, at event level: data that arrives while an extraction is reading does not
    disturb it — feeding the next fragment and then receiving `f` gives the same state as receiving `f`
    first (so every recv can be moved in front of the extraction steps it interleaves with) -/
theorem C20_recv_commutes_with_exStep (S : Spec) (s s1 s2 : State) (f : Frag)
    (h1 : stepNow S s .exStep = some s1) (h2 : stepNow S s (.recv f) = some s2) :
    ∃ s3, stepNow S s2 .exStep = some s3 ∧ stepNow S s1 (.recv f) = some s3 := by
  simp only [stepNow, step] at h1 h2
  split at h2
  · rename_i hc2
    injection h2 with h2; subst h2
    split at h1
    · rename_i e he
      split at h1
      · rename_i hc1
        split at h1
        · rename_i i d hfn
          injection h1 with h1; subst h1
          have hfn' := findNext_append e.sender _ s.buffer f e.pos (i, d) hfn
          have hl : live s = true := hc1.1
          refine ⟨{ s with buffer := s.buffer ++ [f], recvd := s.recvd ++ [f],
                           ex := some { e with avail := (feedTypes S i (e.word ++ [d]) e.avail e.compl).1,
                                               compl := (feedTypes S i (e.word ++ [d]) e.avail e.compl).2,
                                               pos := i + 1, word := e.word ++ [d],
                                               go := !(feedTypes S i (e.word ++ [d]) e.avail e.compl).1.isEmpty } },
                  ?_, ?_⟩
          · simp only [stepNow, step, he]
            rw [if_pos ⟨by simpa [live] using hl, hc1.2⟩, hfn']
          · simp only [stepNow, step]
            rw [if_pos hc2]
        · simp at h1
      · simp at h1
    · simp at h1
  · simp at h2

/-! ## the witness: one sender, two recipients -/

def wSpec : Spec where
  forecast := fun _ => [⟨"Ex", some "Fz", "<a>"⟩]
  done := fun _ => false
  fuzzer := fun p => p != "Ex"
  complete := fun _ w => w == [121]
  cont := fun _ _ => false
  ok := fun _ _ => true

/-- "y" arrives at party Fy; the forecast expects `<Ex:Fz:a>` -/
def wSchedule : List Event := [.recv ⟨"Ex", "Fy", 121⟩, .exStart, .exStep, .exFinish]

/-- the current rule: no type of Ex is addressed to Fy — "could not parse", nothing recorded, the data stays
    (kernel-evaluated run; this is the run /repo makes, replayed by the harness from corpus/C20) -/
theorem C20_misdelivered_witness :
    (runEvents Generated.variant wSpec init wSchedule).map (fun s => (s.history, s.buffer, s.failed, s.used))
      = some ([], [⟨"Ex", "Fy", 121⟩], some .noParse, []) := by decide

def wFinalOld : State :=
  { init with history := [⟨"Ex", some "Fz", "<a>", [121], true⟩], recvd := [⟨"Ex", "Fy", 121⟩],
              used := [[⟨"Ex", "Fy", 121⟩]] }

/-- OLD RULE (sender-only filtering, before 8c7aa85d): the data that reached Fy is recorded as a message
    received by Fz -/
theorem C20_OLD_RULE_recipient_misattributed : runEvents Variant.old wSpec init wSchedule = some wFinalOld := by
  decide

/-- OLD RULE: hence the full statement was false of the code before 8c7aa85d -/
theorem C20_OLD_RULE_full_statement_false : ¬ C20_FullStatement Variant.old := by
  intro hfull
  have hr : Reachable Variant.old wSpec wFinalOld :=
    reachable_runEvents _ wSpec wSchedule init wFinalOld Reachable.init C20_OLD_RULE_recipient_misattributed
  have hp := (hfull wSpec wFinalOld hr).attributed
  obtain ⟨⟨_, _, q, hq, hor⟩, _⟩ : Attributed ⟨"Ex", some "Fz", "<a>", [121], true⟩ [⟨"Ex", "Fy", 121⟩] ∧ True := hp
  have h1 := (hq ⟨"Ex", "Fy", 121⟩ (by simp)).2
  rcases hor with h | h
  · simp at h
  · simp at h; rw [← h] at h1; simp at h1

def rSpec : Spec where
  forecast := fun h => if h.length == 0 then [⟨"Fz", some "Ex", "<q>"⟩] else [⟨"Fz", some "Ex", "<r>"⟩]
  done := fun _ => false
  fuzzer := fun p => p == "Fz"
  complete := fun _ _ => false
  cont := fun _ _ => false
  ok := fun _ _ => true

def rQ : Msg := ⟨"Fz", some "Ex", "<q>", [113], false⟩

/-- OLD RULE (unguarded send, before bd6395f0): when the generator comes back with the history tree itself,
    `<q>` goes to party.send a second time while the recorded interaction keeps its length -/
theorem C20_OLD_RULE_retransmits :
    (runEvents Variant.old rSpec init [.fuzzerTurn [rQ], .fuzzerTurn [rQ]]).map (fun s => (s.history.length, s.outbox.length))
      = some (1, 2) := by decide

/-- the current rule on the same schedule: sent once -/
theorem C20_retransmit_witness_now :
    (runEvents Generated.variant rSpec init [.fuzzerTurn [rQ], .fuzzerTurn [rQ]]).map (fun s => (s.history.length, s.outbox.length))
      = some (1, 1) := by decide

/-! ## non-vacuity -/

/-- ping / pong with a constraint-violating variant -/
def exSpec : Spec where
  forecast := fun h => match h.length with
    | 0 => [⟨"Fz", some "Ex", "<ping>"⟩]
    | 1 => [⟨"Ex", some "Fz", "<pong>"⟩, ⟨"Ex", some "Fz", "<po>"⟩]
    | _ => []
  done := fun h => h.length == 2
  fuzzer := fun p => p == "Fz"
  complete := fun t w => (t == "<pong>" && w == [1, 2, 3]) || (t == "<po>" && w == [1, 2])
  cont := fun t w => (t == "<pong>" && (w == [1] || w == [1, 2])) || (t == "<po>" && w == [1])
  ok := fun _ m => m.payload != [1, 2]

def exPing : Msg := ⟨"Fz", some "Ex", "<ping>", [9], false⟩

/-- interleaved arrival, two candidate types, the longer parse wins, the run completes -/
example : (runEvents Generated.variant exSpec init
    [.fuzzerTurn [exPing], .recv ⟨"Ex", "Fz", 1⟩, .exStart, .exStep, .recv ⟨"Ex", "Fz", 2⟩, .exStep,
     .recv ⟨"Ex", "Fz", 3⟩, .exStep, .exFinish, .finishRun]).map (fun s => (s.history.map (·.type), s.buffer, s.failed, s.finished))
    = some (["<ping>", "<pong>"], [], none, true) := by decide

/-- the peer stops after "po": `<po>` parses, the constraint rejects it, the run fails, history unchanged -/
example : (runEvents Generated.variant exSpec init
    [.fuzzerTurn [exPing], .recv ⟨"Ex", "Fz", 1⟩, .recv ⟨"Ex", "Fz", 2⟩, .exStart, .exStep, .exStep, .silence]).map
      (fun s => (s.history.map (·.type), s.failed, s.rejected.map (·.type)))
    = some (["<ping>"], some .constraint, some "<po>") := by decide

/-- truncated: silence before anything completed -/
example : (runEvents Generated.variant exSpec init
    [.fuzzerTurn [exPing], .recv ⟨"Ex", "Fz", 1⟩, .exStart, .exStep, .silence]).map (fun s => (s.history.length, s.failed))
    = some (1, some .timeoutFragment) := by decide

/-- wrong data: no type parses -/
example : (runEvents Generated.variant exSpec init
    [.fuzzerTurn [exPing], .recv ⟨"Ex", "Fz", 7⟩, .exStart, .exStep, .exFinish]).map (fun s => (s.history.length, s.failed, s.buffer))
    = some (1, some .noParse, [⟨"Ex", "Fz", 7⟩]) := by decide

/-- the fuzzer does not send while remote data is buffered -/
example : runEvents Generated.variant exSpec init [.recv ⟨"Ex", "Fz", 1⟩, .fuzzerTurn [exPing]] = none := by decide

/-- hypotheses of `C20_failed_is_final`: after the failure above more data arrives; the verdict and the history
    stay, a further step of the run itself is not enabled -/
example : (runEvents Generated.variant exSpec init
    [.fuzzerTurn [exPing], .recv ⟨"Ex", "Fz", 7⟩, .exStart, .exStep, .exFinish, .recv ⟨"Ex", "Fz", 1⟩]).map
      (fun s => (s.history.length, s.failed, s.buffer.length))
    = some (1, some .noParse, 2) := by decide
example : runEvents Generated.variant exSpec init
    [.fuzzerTurn [exPing], .recv ⟨"Ex", "Fz", 7⟩, .exStart, .exStep, .exFinish, .exStart] = none := by decide

/-- two channels of one sender interleaved in the buffer (x→Fz, u→Fy, y→Fz): the extraction started by the
    first fragment reads "xy" of Ex→Fz across the fragment of Ex→Fy, which stays buffered -/
def iSpec : Spec where
  forecast := fun _ => [⟨"Ex", some "Fz", "<a>"⟩, ⟨"Ex", some "Fy", "<b>"⟩]
  done := fun _ => false
  fuzzer := fun p => p != "Ex"
  complete := fun t w => (t == "<a>" && w == [120, 121]) || (t == "<b>" && w == [117])
  cont := fun t w => t == "<a>" && w == [120]
  ok := fun _ _ => true

example : (runEvents Generated.variant iSpec init
    [.recv ⟨"Ex", "Fz", 120⟩, .recv ⟨"Ex", "Fy", 117⟩, .recv ⟨"Ex", "Fz", 121⟩, .exStart, .exStep, .exStep, .exFinish]).map
      (fun s => (s.history, s.buffer, s.failed))
    = some ([⟨"Ex", some "Fz", "<a>", [120, 121], true⟩], [⟨"Ex", "Fy", 117⟩], none) := by decide

/-- hypotheses of `C20_channel_accounting` / `C20_recorded_recipient_is_true_recipient` are satisfiable on a run
    that accepts a message -/
example : ∃ s, ReachableNow exSpec s ∧ (remoteMsgs s.history).length = 1 ∧
    (∀ m ∈ remoteMsgs s.history ++ s.rejected.toList, m.sender = "Ex" → m.recipient ≠ none) := by
  refine ⟨_, reachable_runEvents _ exSpec
    [.fuzzerTurn [exPing], .recv ⟨"Ex", "Fz", 1⟩, .recv ⟨"Ex", "Fz", 2⟩, .recv ⟨"Ex", "Fz", 3⟩, .exStart, .exStep,
      .exStep, .exStep, .exFinish] init _ Reachable.init rfl, by decide, by decide⟩

/-- hypotheses of `C20_misdelivered_data_fails` are satisfiable (the witness above) -/
example : ∀ p r, pickFrag (wSpec.forecast []) [⟨"Ex", "Fy", 121⟩] = some (p, r) →
    typesFor Generated.variant (wSpec.forecast []) p r = [] := by
  intro p r h
  have : (p, r) = ("Ex", "Fy") := by
    have h' : pickFrag (wSpec.forecast []) [⟨"Ex", "Fy", 121⟩] = some ("Ex", "Fy") := by decide
    rw [h'] at h; exact (Option.some.inj h).symm
  cases this
  decide

end Io
end FV
