#!/usr/bin/env python3
"""Run /repo's pinned test suite (guard OFF) and compare with /root/.vp/BASELINE.json stable_pass.
usage: [VERIF_REPO=<worktree>] baseline.py [-n N]   exit 0 iff every stable_pass test passed."""
import json, os, subprocess, sys, tempfile, xml.etree.ElementTree as ET
n = None
if "-n" in sys.argv:
    n = sys.argv[sys.argv.index("-n") + 1]
base = json.load(open("/root/.vp/BASELINE.json"))
want = set(base["stable_pass"])
out = tempfile.mktemp(suffix=".junit.xml", dir="/var/tmp")
cmd = ["/venv/bin/python", "-m", "pytest", "-ra", "-q", "-p", "no:cacheprovider", "--timeout=900",
       "--continue-on-collection-errors", f"--junitxml={out}"]
if n:
    cmd += ["-n", n]
env = dict(os.environ)
env.pop("FANDANGO_VERIF", None)
repo = os.environ.get("VERIF_REPO", "/repo")
env["PYTHONPATH"] = repo + "/src"
r = subprocess.run(cmd, cwd=repo, env=env, stdout=subprocess.PIPE, stderr=subprocess.STDOUT, text=True)
print(r.stdout[-1500:])
passed = set()
for tc in ET.parse(out).getroot().iter("testcase"):
    bad = any(ch.tag in ("failure", "error", "skipped") for ch in tc)
    if not bad:
        passed.add(f"{tc.get('classname')}::{tc.get('name')}")
os.unlink(out)
missing = sorted(want - passed)
print(f"stable_pass={len(want)} passed_now={len(passed)} missing={len(missing)}")
for m in missing[:40]:
    print("  MISSING", m)
sys.exit(1 if missing else 0)
