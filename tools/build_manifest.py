#!/usr/bin/env python3
"""assemble MANIFEST.json from manifest_parts/Cxx.json (+ manifest_parts/_base.json);
properties without a part are listed under not_applicable with the reason in _base.json."""
import glob, json, os
root = os.path.dirname(os.path.dirname(os.path.abspath(__file__)))
base = json.load(open(f"{root}/manifest_parts/_base.json"))
ids = [json.loads(l)["id"] for l in open(f"{root}/properties.jsonl")]
checks = []
for pid in ids:
    p = f"{root}/manifest_parts/{pid}.json"
    if os.path.exists(p):
        checks.append(json.load(open(p)))
targets = []
for c in checks:
    for t in c.pop("lean_targets", []):
        if t not in targets:
            targets.append(t)
claimed = {c["property_id"] for c in checks}
na = [{"property_id": pid, "reason": base["na_reasons"].get(pid, base["na_default"])}
      for pid in ids if pid not in claimed]
setup = "cd lean && lake build " + " ".join(targets) if targets else base["setup_cmd"]
m = {"version": 1, "setup_cmd": setup, "hooks": base["hooks"], "engines": base["engines"],
     "checks": checks, "not_applicable": na, "notes": base["notes"]}
json.dump(m, open(f"{root}/MANIFEST.json", "w"), indent=1)
print("claimed:", sorted(claimed), "not_applicable:", [x["property_id"] for x in na])
