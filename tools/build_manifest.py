#!/usr/bin/env python3
"""assemble MANIFEST.json from manifest_parts/Cxx.json (+ manifest_parts/_base.json);
properties without a part are listed under not_applicable with the reason in _base.json."""
import glob, json, os
root = os.path.dirname(os.path.dirname(os.path.abspath(__file__)))
base = json.load(open(f"{root}/manifest_parts/_base.json"))
ids = [json.loads(l)["id"] for l in open(f"{root}/properties.jsonl")]
checks = []
allow = set(open(f"{root}/manifest_parts/_claimed.txt").read().split())
for pid in ids:
    p = f"{root}/manifest_parts/{pid}.json"
    if pid in allow and os.path.exists(p):
        checks.append(json.load(open(p)))
import re
def guess_targets(pid):
    out = [f"Props.{pid}"]
    seen, todo = set(), [f"{root}/harness/props/{pid.lower()}.py"]
    while todo:
        f = todo.pop()
        if f in seen or not os.path.exists(f):
            continue
        seen.add(f)
        src = open(f).read()
        for d in re.findall(r"drv_[a-z]+", src):
            if d not in out:
                out.append(d)
        for m in re.findall(r"harness\.(impl|gen)\.(\w+)", src) + re.findall(r"from harness\.(impl|gen) import (\w+)", src):
            todo.append(f"{root}/harness/{m[0]}/{m[1]}.py")
    return out
targets = []
for c in checks:
    for t in (c.pop("lean_targets", None) or guess_targets(c["property_id"])):
        if t not in targets:
            targets.append(t)
claimed = {c["property_id"] for c in checks}
na = [{"property_id": pid, "reason": base["na_reasons"].get(pid, base["na_default"])}
      for pid in ids if pid not in claimed]
setup = ("/venv/bin/python tools/regen_all.py && cd lean && lake build " + " ".join(targets)) if targets else base["setup_cmd"]
m = {"version": 1, "setup_cmd": setup, "hooks": base["hooks"], "engines": base["engines"],
     "checks": checks, "not_applicable": na, "notes": base["notes"]}
json.dump(m, open(f"{root}/MANIFEST.json", "w"), indent=1)
print("claimed:", sorted(claimed), "not_applicable:", [x["property_id"] for x in na])
