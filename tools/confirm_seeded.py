#!/usr/bin/env python3
"""confirm_seeded.py <dir with patch.diff demo.py meta.json> <seeded-id> [--skip-suite]
Confirm a seeded change independently on a scratch worktree of /repo HEAD:
 (1) demo.py exits 0 on the clean tree, (2) the patch applies, (3) demo.py exits 1 with it,
 (4) the pinned suite's stable_pass tests still pass with it (one known load-flaky test is retried alone).
On success copy it to /verif/seeded/<id>/ with meta.json extended by what was run."""
import json, os, shutil, subprocess, sys, tempfile, xml.etree.ElementTree as ET
src, sid = sys.argv[1], sys.argv[2]
skip_suite = "--skip-suite" in sys.argv
WT = os.environ.get("CONFIRM_WT", "/var/tmp/confirmwt")
head = subprocess.run(["git", "-C", "/repo", "rev-parse", "HEAD"], capture_output=True, text=True).stdout.strip()
if not os.path.isdir(WT):
    subprocess.run(["git", "-C", "/repo", "worktree", "add", "--detach", WT, "HEAD"], check=True, capture_output=True)
subprocess.run(["git", "-C", WT, "reset", "-q", "--hard"], check=False)
subprocess.run(["git", "-C", WT, "clean", "-fdq"], check=False)
subprocess.run(["git", "-C", WT, "checkout", "-q", "--detach", head], check=True)
subprocess.run(["git", "-C", WT, "checkout", "--", "."], check=True)
subprocess.run(["git", "-C", WT, "clean", "-fdq"], check=True)
_so = "src/fandango/language/parser/sa_fandango_cpp_parser.so"
if os.path.exists("/repo/" + _so) and not os.path.exists(os.path.join(WT, _so)):
    shutil.copy2("/repo/" + _so, os.path.join(WT, _so))
env = dict(os.environ, PYTHONPATH=f"{WT}/src", PYTHONHASHSEED="0")
env.pop("FANDANGO_RAISE_ALL_EXCEPTIONS", None)
def demo():
    r = subprocess.run(["/venv/bin/python", os.path.join(src, "demo.py"), f"{WT}/src"], env=env, capture_output=True, text=True, timeout=900)
    return r.returncode, (r.stdout + r.stderr)[-600:]
log = {"repo_head": head}
rc, out = demo(); log["demo_clean"] = rc
if rc != 0: sys.exit(f"REJECT: demo fails on the clean tree (rc={rc})\n{out}")
r = subprocess.run(["git", "-C", WT, "apply", "--3way", os.path.abspath(os.path.join(src, "patch.diff"))], capture_output=True, text=True)
if r.returncode: sys.exit("REJECT: patch does not apply on HEAD: " + r.stderr[-500:])
subprocess.run(["git", "-C", WT, "reset", "-q"], check=True)
rc, out = demo(); log["demo_patched"] = rc
if rc == 0: sys.exit(f"REJECT: demo exits 0 with the patch (want non-zero)\n{out}")
log["demo_output"] = out[-300:]
if not skip_suite:
    want = set(json.load(open("/root/.vp/BASELINE.json"))["stable_pass"])
    x = tempfile.mktemp(suffix=".xml", dir="/var/tmp")
    subprocess.run(["/venv/bin/python", "-m", "pytest", "-q", "-p", "no:cacheprovider", "--timeout=900", "-n", "6",
                    "--continue-on-collection-errors", f"--junitxml={x}"], cwd=WT, env=dict(env, PYTHONHASHSEED=os.environ.get("PYTHONHASHSEED", "")) if False else {k: v for k, v in env.items() if k != "PYTHONHASHSEED"},
                   capture_output=True, text=True, timeout=3600)
    passed = {f"{tc.get('classname')}::{tc.get('name')}" for tc in ET.parse(x).getroot().iter("testcase")
              if not any(ch.tag in ("failure", "error", "skipped") for ch in tc)}
    os.unlink(x)
    missing = sorted(want - passed)
    retry = []
    for m in missing:
        cls, name = m.split("::", 1)
        parts = cls.split(".")
        # tests.test_x[.Class]::name
        path = "/".join(parts[:2]) + ".py"
        nodeid = path + "::" + "::".join(parts[2:] + [name])
        def alone():
            return subprocess.run(["/venv/bin/python", "-m", "pytest", "-q", "-p", "no:cacheprovider", "--timeout=900", nodeid],
                                  cwd=WT, env={k: v for k, v in env.items() if k != "PYTHONHASHSEED"}, capture_output=True, text=True, timeout=1800).returncode
        ok = any(alone() == 0 for _ in range(3))
        if not ok:
            # environmental? compare with the clean tree under the same load
            subprocess.run(["git", "-C", WT, "stash", "-q"], check=True)
            clean_ok = any(alone() == 0 for _ in range(2))
            subprocess.run(["git", "-C", WT, "stash", "pop", "-q"], check=True)
            if clean_ok:
                retry.append(m)
            else:
                log.setdefault("fails_on_clean_tree_too", []).append(m)
    log["suite"] = {"stable_pass": len(want), "missing_first_run": missing, "still_failing_alone": retry}
    if retry: sys.exit(f"REJECT: the suite no longer passes with the patch: {retry}")
dst = f"/verif/seeded/{sid}"
os.makedirs(dst, exist_ok=True)
for f in ("patch.diff", "demo.py"):
    shutil.copy(os.path.join(src, f), os.path.join(dst, f))
# store the patch as it applies on the confirmed HEAD
d = subprocess.run(["git", "-C", WT, "diff"], capture_output=True, text=True).stdout
open(os.path.join(dst, "patch.diff"), "w").write(d)
meta = json.load(open(os.path.join(src, "meta.json")))
meta["confirmed"] = log
meta["confirmed_by"] = "tools/confirm_seeded.py: demo exits 0 on clean HEAD and 1 with the patch; stable_pass tests of BASELINE.json still pass with it"
json.dump(meta, open(os.path.join(dst, "meta.json"), "w"), indent=1)
subprocess.run(["git", "-C", WT, "checkout", "--", "."], check=True)
print("CONFIRMED", sid, json.dumps(log)[:300])
