#!/usr/bin/env python3
"""regen_all.py — run every source-to-Lean translator once (lean/Generated/*.lean), so that MANIFEST.setup_cmd builds
the theorems against what /repo's source says NOW and never against a stale or foreign generated file.  A translator
that refuses still writes its file (the corresponding obligation then fails in the check, not in the setup)."""
import importlib
import os
import sys
import traceback
from pathlib import Path

ROOT = Path(__file__).resolve().parents[1]
sys.path.insert(0, str(ROOT))
os.chdir(ROOT)
from harness.common import use_repo  # noqa: E402

use_repo()
bad = 0
for f in sorted((ROOT / "harness").glob("translate*.py")):
    name = f.stem
    try:
        mod = importlib.import_module(f"harness.{name}")
        r = mod.regenerate()
        ref = (r or {}).get("refusals") if isinstance(r, dict) else None
        print(f"{name}: ok" + (f" (refusals: {len(ref)})" if ref else ""))
    except Exception:  # noqa: BLE001
        bad += 1
        print(f"{name}: FAILED\n{traceback.format_exc()[-600:]}")
sys.exit(0)
