#!/usr/bin/env python3
"""try_seeded.py <seeded/dir | patch.diff> [Cxx ...] [--tier quick]
Apply a seeded change to a private worktree of /repo (VERIF_REPO), run the quick checks of the given properties (default:
the property named in meta.json), print their verdict lines, and ALWAYS restore /repo."""
import json, os, subprocess, sys
args = [a for a in sys.argv[1:] if not a.startswith("--")]
tier = "quick"
if "--tier" in sys.argv:
    tier = sys.argv[sys.argv.index("--tier") + 1]
    args = [a for a in args if a != tier]
target = args[0]
patch = target if target.endswith(".diff") else os.path.join(target, "patch.diff")
props = args[1:]
if not props:
    props = [json.load(open(os.path.join(os.path.dirname(patch), "meta.json")))["property"]]
WT = "/var/tmp/seedwt/repo"
if not os.path.isdir(WT):
    os.makedirs("/var/tmp/seedwt", exist_ok=True)
    subprocess.run(["git", "-C", "/repo", "worktree", "add", "--detach", WT, "HEAD"], check=True, capture_output=True)
subprocess.run(["git", "-C", WT, "checkout", "-q", "--detach", subprocess.run(["git", "-C", "/repo", "rev-parse", "HEAD"], capture_output=True, text=True).stdout.strip()], check=True)
subprocess.run(["git", "-C", WT, "checkout", "--", "."], check=True)
# the compiled C++ spec reader is build output (ignored by git): without it the worktree falls back to the slow reader
_so = "src/fandango/language/parser/sa_fandango_cpp_parser.so"
if os.path.exists("/repo/" + _so) and not os.path.exists(os.path.join(WT, _so)):
    import shutil as _sh
    _sh.copy2("/repo/" + _so, os.path.join(WT, _so))
r = subprocess.run(["git", "-C", WT, "apply", "--3way", os.path.abspath(patch)], capture_output=True, text=True)
subprocess.run(["git", "-C", WT, "reset", "-q"])
if r.returncode:
    sys.exit("patch does not apply: " + r.stderr)
env = dict(os.environ, VERIF_REPO=WT)
rc_all = {}
# evidence/ and lean/Generated/ are rewritten by a run against the mutated worktree: save and restore them
import glob, shutil, tempfile
SAVE = tempfile.mkdtemp(prefix="try_seeded_", dir="/var/tmp")
saved = glob.glob("/verif/evidence/*.json") + glob.glob("/verif/lean/Generated/*.lean")
for f in saved:
    os.makedirs(os.path.dirname(SAVE + f), exist_ok=True)
    shutil.copy2(f, SAVE + f)
try:
    for p in props:
        r = subprocess.run(["/venv/bin/python", "harness/check.py", p, "--tier", tier], cwd="/verif", env=env,
                           capture_output=True, text=True, timeout=3600)
        lines = [l for l in r.stdout.splitlines() if l.startswith(("VIOLATION", "KNOWN-FINDING", "[" + p))]
        print(f"== {p}: exit {r.returncode}")
        for l in lines[:8]:
            print("   ", l[:300])
        if r.returncode == 2:
            print("   stderr:", r.stderr[-500:])
        rc_all[p] = r.returncode
finally:
    subprocess.run(["git", "-C", WT, "checkout", "--", "."], check=True)
    # bring evidence/ and Generated/*.lean back to what they were (in sync with /repo)
    earley_props = {"C04", "C05", "C06", "C13"}
    for f in saved:
        if f.endswith("Generated/Earley.lean") and not (set(props) & earley_props):
            continue        # not written by these checks; another session may be regenerating it right now
        if open(f, "rb").read() != open(SAVE + f, "rb").read():
            shutil.copy2(SAVE + f, f)
    shutil.rmtree(SAVE, ignore_errors=True)
print("caught" if any(v == 1 for v in rc_all.values()) else "MISSED", rc_all)
