#!/usr/bin/env python3
"""validate MANIFEST.json and every evidence file against the schemas (run with python3-vt)"""
import glob, json, sys
import jsonschema
ok = True
def v(path, schema):
    global ok
    try:
        jsonschema.validate(json.load(open(path)), json.load(open(schema)))
        print("valid  ", path)
    except Exception as e:
        ok = False
        print("INVALID", path, str(e)[:300])
v('/verif/MANIFEST.json', '/root/.vp/MANIFEST.schema.json')
for f in sorted(glob.glob('/verif/evidence/*.json')):
    v(f, '/root/.vp/EVIDENCE.schema.json')
m = json.load(open('/verif/MANIFEST.json'))
ids = {json.loads(l)['id'] for l in open('/verif/properties.jsonl')}
claimed = {c['property_id'] for c in m['checks']}
na = {c['property_id'] for c in m.get('not_applicable', [])}
if claimed & na or (claimed | na) != ids:
    ok = False
    print("property coverage mismatch", sorted(ids - claimed - na), sorted(claimed & na))
sys.exit(0 if ok else 1)
